/-
C06  Forecast accuracy metrics equal their published definitions and obey their laws.
Property theorems about SkVerif/Model/Metrics.lean (model of performance_metrics/forecasting/_functions.py and
_classes.py).  `eps` stands for EPS = np.finfo(float64).eps; every theorem holds for any `0 < eps`.
A result `Out` carries radicands `qs` and a root degree `deg`: the reported number per column is `qs[j]^(1/deg)`
(`deg = 1`: no root; `np.sqrt` doubles the degree; geometric means have the number of factors as degree).
Only theorems + non-vacuity examples here; lemmas live in SkVerif/Lemmas/Metrics*.lean.
-/
import SkVerif.Model.Metrics
import SkVerif.Spec.Metrics
import SkVerif.Lemmas.MetricsSym
import SkVerif.Lemmas.MetricsScale
import SkVerif.Lemmas.MetricsGM
import SkVerif.Lemmas.MetricsMulti
import SkVerif.Lemmas.MetricsMulti2
import SkVerif.Lemmas.MetricsSpec2
namespace SkVerif.C06
open SkVerif SkVerif.Metrics SkVerif.Lem.Metrics
open SkVerif.Spec.Metrics (MAE MSE MAPE MSPE MRAE MASE MSSE IsMedian IsGMean wmean)

/-- the value of EPS in the real code (used only in examples and witnesses) -/
def EPS : Rat := 1 / 4503599627370496

/-! ## 1. Every loss is non-negative -/

/-- All 18 metrics, all options: if the call returns, every radicand is ≥ 0 and (for root-free results) so is the
exact value / weighted average over output columns.  Hypotheses: horizon weights and output weights ≥ 0. -/
theorem loss_nonneg (eps : Rat) (he : 0 < eps) (m : Metric) (a : Args) (out : Out)
    (hw : NonnegW a.hw) (hmo : NonnegMO a.mo) (h : call eps m a = .ok out) :
    (∀ q ∈ out.qs, 0 ≤ q) ∧ (∀ v ∈ out.perCol, 0 ≤ v) := by
  cases m <;> simp only [call] at h
  case mae => exact mae_nonneg h hw hmo
  case mse => exact mse_nonneg h hw hmo
  case mdae => exact mdae_nonneg h hmo
  case mdse => exact mdse_nonneg h hmo
  case mape => exact mape_nonneg h hw hmo
  case mdape => exact mdape_nonneg h hmo
  case mspe => exact mspe_nonneg h hw hmo
  case mdspe => exact mdspe_nonneg h hmo
  case masym => exact masym_nonneg h hw hmo
  case mrae => cases hb : a.yb <;> simp only [hb, needArg] at h <;> (first | cases h | exact mrae_nonneg h hw hmo)
  case mdrae => cases hb : a.yb <;> simp only [hb, needArg] at h <;> (first | cases h | exact mdrae_nonneg h hmo)
  case gmrae => cases hb : a.yb <;> simp only [hb, needArg] at h <;> (first | cases h | exact gmrae_nonneg he h hmo)
  case gmrse => cases hb : a.yb <;> simp only [hb, needArg] at h <;> (first | cases h | exact gmrse_nonneg he h hmo)
  case relloss =>
    cases hb : a.yb <;> simp only [hb, needArg] at h <;> (first | cases h | exact relativeLoss_nonneg he h hw hmo)
  case mase =>
    cases hb : a.ytr <;> simp only [hb, needArg] at h <;>
    (first | cases h | exact scaled_nonneg he (fun _ _ _ _ _ h' hn hm => mae_nonneg h' hn hm) h hw hmo)
  case mdase =>
    cases hb : a.ytr <;> simp only [hb, needArg] at h <;>
    (first | cases h | exact scaled_nonneg he (fun _ _ _ _ _ h' _ hm => mdae_nonneg h' hm) h hw hmo)
  case msse =>
    cases hb : a.ytr <;> simp only [hb, needArg] at h <;>
    (first | cases h | exact scaled_nonneg he (fun _ _ _ _ _ h' hn hm => mse_nonneg h' hn hm) h hw hmo)
  case mdsse =>
    cases hb : a.ytr <;> simp only [hb, needArg] at h <;>
    (first | cases h | exact scaled_nonneg he (fun _ _ _ _ _ h' _ hm => mdse_nonneg h' hm) h hw hmo)

example : call EPS .mase { yt := [[1, 2]], yp := [[3/2, 2]], ytr := some (.arr [[0, 1, 3]]), hw := some [1, 3] }
    = .ok (.avg 1 none [1 / 12]) := by decide +kernel

/-! ## 2. … and zero for a perfect forecast (geometric means: the machine-epsilon floor) -/

/-- The 16 metrics that are not geometric means return exactly 0 when `y_pred = y_true` (all options, all weights). -/
theorem loss_zero_of_perfect (eps : Rat) (m : Metric) (a : Args) (out : Out) (hm : m ≠ .gmrae ∧ m ≠ .gmrse)
    (hp : a.yp = a.yt) (h : call eps m a = .ok out) :
    (∀ q ∈ out.qs, q = 0) ∧ (∀ v ∈ out.perCol, v = 0) := by
  cases m <;> simp only [call, hp] at h
  case mae => exact mae_perfect h
  case mse => exact mse_perfect h
  case mdae => exact mdae_perfect h
  case mdse => exact mdse_perfect h
  case mape => exact mape_perfect h
  case mdape => exact mdape_perfect h
  case mspe => exact mspe_perfect h
  case mdspe => exact mdspe_perfect h
  case masym => exact masym_perfect h
  case mrae => cases hb : a.yb <;> simp only [hb, needArg] at h <;> (first | cases h | exact mrae_perfect h)
  case mdrae => cases hb : a.yb <;> simp only [hb, needArg] at h <;> (first | cases h | exact mdrae_perfect h)
  case gmrae => exact absurd rfl hm.1
  case gmrse => exact absurd rfl hm.2
  case relloss =>
    cases hb : a.yb <;> simp only [hb, needArg] at h <;> (first | cases h | exact relativeLoss_perfect h)
  case mase =>
    cases hb : a.ytr <;> simp only [hb, needArg] at h <;>
    (first | cases h | exact scaled_perfect (fun _ _ _ _ h' => mae_perfect h') h)
  case mdase =>
    cases hb : a.ytr <;> simp only [hb, needArg] at h <;>
    (first | cases h | exact scaled_perfect (fun _ _ _ _ h' => mdae_perfect h') h)
  case msse =>
    cases hb : a.ytr <;> simp only [hb, needArg] at h <;>
    (first | cases h | exact scaled_perfect (fun _ _ _ _ h' => mse_perfect h') h)
  case mdsse =>
    cases hb : a.ytr <;> simp only [hb, needArg] at h <;>
    (first | cases h | exact scaled_perfect (fun _ _ _ _ h' => mdse_perfect h') h)

example : call EPS .mdspe { yt := [[1, -2, 0]], yp := [[1, -2, 0]], hw := some [1, 0, 2], sqrt := true }
    = .ok (.avg 2 none [0]) := by decide +kernel

/-- Geometric means at a perfect forecast, with or without horizon weights: every relative error is 0, is floored to
`eps`, so the radicand is `eps ^ d` under a root of degree `d` (`2d` for root GMRSE), where `d` = number of steps
(no weights) or the sum of the integer exponents proportional to the weights: the reported value `g` is the documented
floor, `g ^ d = eps ^ d` resp. `(g*g) ^ d = eps ^ d`.  (Full strength since fix 11fa5f6.) -/
theorem gm_floor_of_perfect (eps : Rat) (he : 0 < eps) (yt yb : Mat) (hw : Option (List Rat)) (mo : MO) (sqrt : Bool)
    (out : Out) (hRt : Rect yt) (hRb : Rect yb) :
    (geometricMeanRelativeAbsoluteError eps yt yt yb hw mo = .ok out →
      out.deg = gmDeg (nrows yt) hw ∧ ∀ q ∈ out.qs, IsGMean eps (gmDeg (nrows yt) hw) q) ∧
    (geometricMeanRelativeSquaredError eps yt yt yb hw mo sqrt = .ok out →
      out.deg = rootDeg sqrt (gmDeg (nrows yt) hw) ∧ ∀ q ∈ out.qs, IsGMean eps (gmDeg (nrows yt) hw) q) := by
  constructor
  · intro h
    obtain ⟨h1, h2⟩ := gmrae_perfect_floor hRt hRb h
    exact ⟨h1, fun q hq => ⟨le_of_lt he, (h2 q hq).symm⟩⟩
  · intro h
    obtain ⟨h1, h2⟩ := gmrse_perfect_floor hRt hRb h
    exact ⟨h1, fun q hq => ⟨le_of_lt he, (h2 q hq).symm⟩⟩

/-- regression of the former broadcasting defect: y_true=y_pred=[1,2], benchmark=[0,0], w=[1,3] → EPS⁴ under a 4th root -/
example : geometricMeanRelativeAbsoluteError EPS [[1, 2]] [[1, 2]] [[0, 0]] (some [1, 3]) .uniform
    = .ok (.avg 4 none [EPS ^ 4]) := by decide +kernel

example : geometricMeanRelativeSquaredError EPS [[1, 2]] [[1, 2]] [[0, 5]] none .raw true
    = .ok (.raw 4 [EPS ^ 2]) := by decide +kernel

/-! ## 3. Symmetric percentage errors: swap-invariant, within [0, 2] -/

/-- sMAPE, sMdAPE, sMSPE, sMdSPE (`symmetric = True`): swapping `y_true` and `y_pred` changes nothing —
same value, same error, for every shape, weight and option. -/
theorem spe_symm (eps : Rat) (yt yp : Mat) (hw : Option (List Rat)) (mo : MO) (sqrt : Bool) :
    meanAbsolutePercentageError eps yp yt hw mo true = meanAbsolutePercentageError eps yt yp hw mo true ∧
    medianAbsolutePercentageError eps yp yt hw mo true = medianAbsolutePercentageError eps yt yp hw mo true ∧
    meanSquaredPercentageError eps yp yt hw mo sqrt true = meanSquaredPercentageError eps yt yp hw mo sqrt true ∧
    medianSquaredPercentageError eps yp yt hw mo sqrt true = medianSquaredPercentageError eps yt yp hw mo sqrt true :=
  ⟨mape_swap eps yt yp hw mo, mdape_swap eps yt yp hw mo, mspe_swap eps yt yp hw mo sqrt,
   mdspe_swap eps yt yp hw mo sqrt⟩

/-- sMAPE and sMdAPE lie in [0, 2]; the radicands of sMSPE / sMdSPE lie in [0, 4] (so the root variants lie in [0, 2]).
Per output column; horizon weights ≥ 0. -/
theorem spe_mem_Icc_0_2 (eps : Rat) (he : 0 < eps) (yt yp : Mat) (hw : Option (List Rat)) (mo : MO) (sqrt : Bool)
    (out : Out) (hn : NonnegW hw) :
    (meanAbsolutePercentageError eps yt yp hw mo true = .ok out → ∀ q ∈ out.qs, 0 ≤ q ∧ q ≤ 2) ∧
    (medianAbsolutePercentageError eps yt yp hw mo true = .ok out → ∀ q ∈ out.qs, 0 ≤ q ∧ q ≤ 2) ∧
    (meanSquaredPercentageError eps yt yp hw mo sqrt true = .ok out → ∀ q ∈ out.qs, 0 ≤ q ∧ q ≤ 4) ∧
    (medianSquaredPercentageError eps yt yp hw mo sqrt true = .ok out → ∀ q ∈ out.qs, 0 ≤ q ∧ q ≤ 4) :=
  ⟨mape_sym_le he hn, mdape_sym_le he, mspe_sym_le he hn, mdspe_sym_le he⟩

/-- the bound 2 is attained (sign change) -/
example : meanAbsolutePercentageError EPS [[1, -2]] [[-1, 3]] none .raw true = .ok (.raw 1 [2]) := by decide +kernel

/-- element-wise: sAPE is the textbook 2|a−f|/(|a|+|f|) whenever |a|+|f| ≥ eps, APE is (a−f)/|a| whenever |a| ≥ eps -/
theorem pct_eq_textbook (eps t p : Rat) :
    (eps ≤ |t| + |p| → pctErr eps true t p = 2 * |t - p| / (|t| + |p|)) ∧
    (eps ≤ |t| → pctErr eps false t p = (t - p) / |t|) :=
  ⟨pctErr_sym_eq_textbook eps t p, pctErr_asym_eq_textbook eps t p⟩

/-- element-wise: the relative error is the textbook (a−f)/(a−f*) whenever |a−f*| ≥ eps; the clamp keeps the sign -/
theorem rel_eq_textbook (eps t p b : Rat) (he : 0 < eps) :
    (eps ≤ |t - b| → relErr eps t p b = (t - p) / (t - b)) ∧ eps ≤ |relDen eps t b| :=
  ⟨relErr_eq_textbook eps t p b, abs_relDen_ge eps t b he⟩

/-- element-wise: the asymmetric error applies `left` strictly below the threshold and `right` from it on -/
theorem asym_eq_textbook (thr : Rat) (l r : EF) (t p : Rat) :
    (t - p < thr → asymErr thr l r t p = l.app (t - p)) ∧ (thr ≤ t - p → asymErr thr l r t p = r.app (t - p)) :=
  ⟨asymErr_left thr l r t p, asymErr_right thr l r t p⟩

/-! ## 4. Class wrappers -/

/-- Each of the 18 metric classes, called as `Cls(**options)(y_true, y_pred, **kwargs)`, returns exactly what its
function returns with the same options: the stored options the function uses (symmetric, square_root, sp, asymmetric
threshold and error functions, relative loss function) are all forwarded, and the keyword arguments (y_train,
y_pred_benchmark, horizon_weight, multioutput) are handed through.  (Full strength since fix acfe904.) -/
theorem class_call_eq_function (eps : Rat) (c : Metric) (o : ClsOpts) (yt yp : Mat) (kw : Kw) :
    classCall eps c o yt yp kw =
      call eps c { yt := yt, yp := yp, yb := kw.yb, ytr := kw.ytr, ix := kw.ix, hw := kw.hw, mo := kw.mo,
                   sym := o.sym, sqrt := o.sqrt, sp := o.sp, thr := o.thr, l := o.l, r := o.r, rlf := o.rlf } := by
  cases c <;> rfl

/-- … and this holds over the whole life of a metric object: after ANY history of `set_params`, attribute
assignments, `clone`s and earlier calls (on any data), a call returns what the function returns with the options the
object holds NOW — the last ones set, or the constructor's if none were set — exactly as a freshly constructed object
with those options does; in particular no state is carried from one call to the next. -/
theorem class_history_eq_function (eps : Rat) (c : Metric) (o : ClsOpts) (hist : List ObjOp) (yt yp : Mat) (kw : Kw) :
    (Obj.run eps { c := c, opts := o } (hist ++ [.call yt yp kw])).getLast? =
      some (classCall eps c (Obj.optsAfter o hist) yt yp kw) ∧
    Obj.run eps { c := c, opts := Obj.optsAfter o hist } [.call yt yp kw] =
      [classCall eps c (Obj.optsAfter o hist) yt yp kw] := by
  refine ⟨?_, rfl⟩
  induction hist generalizing o with
  | nil => rfl
  | cons op rest ih =>
    cases op with
    | setParams o' => exact ih o'
    | setAttr o' => exact ih o'
    | clone => exact ih o
    | call yt' yp' kw' =>
      have h := ih o
      simp only [List.cons_append, Obj.run, Obj.step, Obj.optsAfter] at *
      rw [List.getLast?_cons, h]; rfl

/-- e.g. MeanSquaredError() → set_params(square_root=True) → call: the RMSE (root degree 2), not the MSE -/
example : Obj.run EPS { c := .mse, opts := {} } [.setParams { sqrt := true }, .call [[1, 2]] [[2, 4]] {}]
    = [.ok (.avg 2 none [5/2])] := by decide +kernel

/-- regression of the former class defects (every one of the ten classes that used to raise now returns a value) -/
example : ∀ m ∈ [Metric.mase, .mdase, .msse, .mdsse, .mrae, .mdrae, .gmrae, .gmrse, .masym, .relloss],
    (classCall EPS m { sp := 2 } [[1, 2, 3]] [[3/2, 2, 2]]
      { yb := some [[2, 1, 4]], ytr := some (.arr [[1, 3, 2, 5]]) }).isOk = true := by decide +kernel

/-- a class without the keyword its function needs still raises TypeError (argument binding), as the function does -/
example : classCall EPS .mase {} [[1, 2, 3]] [[3/2, 2, 2]] {} = .error .type := by decide +kernel

/-! ## 5. Textbook formulas (Spec/Metrics.lean), per output column -/

/-- MAE and MSE are the (horizon-weighted) means of |a−f| resp. (a−f)²; `square_root` only doubles the root degree -/
theorem mae_mse_eq_spec (yt yp : Mat) (hw : Option (List Rat)) (mo : MO) (sqrt : Bool) (out : Out) :
    (meanAbsoluteError yt yp hw mo = .ok out → out.deg = 1 ∧ out.qs = List.zipWith (MAE hw) yt yp) ∧
    (meanSquaredError yt yp hw mo sqrt = .ok out →
      out.deg = rootDeg sqrt 1 ∧ out.qs = List.zipWith (MSE hw) yt yp) := by
  constructor
  · intro h
    obtain ⟨h1, h2⟩ := finish_ok (mae_iff.mp h).2.2.2
    refine ⟨h2, ?_⟩
    rw [h1]; congr 1; funext t p
    rw [npAverage_eq_wmean, absErrs_eq_spec]; rfl
  · intro h
    obtain ⟨h1, h2⟩ := finish_ok (mse_iff.mp h).2.2.2
    refine ⟨h2, ?_⟩
    rw [h1]; congr 1; funext t p
    rw [npAverage_eq_wmean, sqErrs_eq_spec]; rfl

/-- MAPE / sMAPE and MSPE / sMSPE are the (weighted) means of the textbook percentage errors (resp. their squares),
provided no actual value is closer to zero than eps (otherwise the denominator is clamped to eps). -/
theorem mape_mspe_eq_spec (eps : Rat) (he : 0 < eps) (yt yp : Mat) (hw : Option (List Rat)) (mo : MO) (sym sqrt : Bool)
    (out : Out) (hg : ∀ t ∈ yt, ∀ a ∈ t, eps ≤ |a|) :
    (meanAbsolutePercentageError eps yt yp hw mo sym = .ok out →
      out.deg = 1 ∧ out.qs = List.zipWith (MAPE hw sym) yt yp) ∧
    (meanSquaredPercentageError eps yt yp hw mo sqrt sym = .ok out →
      out.deg = rootDeg sqrt 1 ∧ out.qs = List.zipWith (MSPE hw sym) yt yp) := by
  constructor
  · intro h
    obtain ⟨h1, h2⟩ := finish_ok (mape_iff.mp h).2.2.2
    refine ⟨h2, ?_⟩
    rw [h1]
    apply zipWith_congr_mem
    intro t ht p _
    rw [npAverage_eq_wmean, pctCol_abs_eq_spec eps he sym t p (hg t ht)]; rfl
  · intro h
    obtain ⟨h1, h2⟩ := finish_ok (mspe_iff.mp h).2.2.2
    refine ⟨h2, ?_⟩
    rw [h1]
    apply zipWith_congr_mem
    intro t ht p _
    rw [npAverage_eq_wmean, pctCol_sqr_eq_spec eps he sym t p (hg t ht)]; rfl

example : meanAbsolutePercentageError EPS [[1, 2], [4, -1]] [[3/2, 2], [2, 1]] (some [1, 3]) .raw false
    = .ok (.raw 1 [1/8, 13/8]) := by decide +kernel

/-- the mean asymmetric error is the (weighted) mean of the asymmetric loss -/
theorem masym_eq_spec (yt yp : Mat) (hw : Option (List Rat)) (mo : MO) (thr : Rat) (l r : EF) (out : Out)
    (h : meanAsymmetricError yt yp hw mo thr (some l) (some r) = .ok out) :
    out.deg = 1 ∧ out.qs = List.zipWith (fun t p => wmean hw (Spec.Metrics.asymLoss thr l.app r.app t p)) yt yp := by
  obtain ⟨h1, h2⟩ := finish_ok (masym_iff.mp h).2.2.2
  refine ⟨h2, ?_⟩
  rw [h1]; congr 1
/-- … with `squared` = x² and `absolute` = |x| -/
theorem ef_app_eq (x : Rat) : EF.squared.app x = x ^ 2 ∧ EF.absolute.app x = |x| :=
  ⟨sqr_eq_pow x, absR_eq_abs x⟩

/-- univariate MRAE = (weighted) mean of |(a−f)/(a−f*)| while the benchmark stays at least eps away from the truth -/
theorem mrae_univariate_eq_spec (eps : Rat) (t p b : Col) (hw : Option (List Rat)) (mo : MO) (out : Out)
    (hg : ∀ x ∈ List.zipWith (fun a g => |a - g|) t b, eps ≤ x)
    (h : meanRelativeAbsoluteError eps [t] [p] [b] hw mo = .ok out) : out.deg = 1 ∧ out.qs = [MRAE hw t p b] := by
  obtain ⟨h1, h2⟩ := finish_ok (mrae_iff.mp h).2.2.2.2
  refine ⟨h2, ?_⟩
  rw [h1]
  simp only [relCols]
  rw [relCol_eq_spec eps t p b hg, map_absR_eq, npAverage_eq_wmean]; rfl

/-- univariate MASE and MSSE / RMSSE (`raw_values`) are the textbook ratios to the in-sample seasonal-naive error,
for every seasonal period 0 < sp < len(y_train), while that naive error is at least eps. -/
theorem scaled_univariate_eq_spec (eps : Rat) (t p c : Col) (ix : Option (Int × Int)) (sp : Int)
    (hw : Option (List Rat)) (sqrt : Bool) (out : Out) (h0 : 0 < sp) (h1 : sp < c.length) :
    (eps ≤ wmean none ((Spec.Metrics.naiveErr sp.toNat c).map (|·|)) →
      meanAbsoluteScaledError eps [t] [p] (.arr [c]) ix sp hw .raw = .ok out →
      out = .raw 1 [MASE hw sp.toNat t p c]) ∧
    (eps ≤ wmean none ((Spec.Metrics.naiveErr sp.toNat c).map (· ^ 2)) →
      meanSquaredScaledError eps [t] [p] (.arr [c]) ix sp hw .raw sqrt = .ok out →
      out = .raw (rootDeg sqrt 1) [MSSE hw sp.toNat t p c]) :=
  ⟨fun hg h => mase_univariate_eq_spec h0 h1 hg h, fun hg h => msse_univariate_eq_spec h0 h1 hg h⟩

example : meanAbsoluteScaledError EPS [[3, -1/2, 2, 7, 2]] [[5/2, 0, 2, 8, 5/4]] (.arr [[5, 1/2, 4, 6, 3, 5, 2]]) none 1
    none .raw = .ok (.raw 1 [11/60]) := by decide +kernel   -- the docstring example 0.18333…

/-- `np.median` (used by the six median metrics when `horizon_weight=None`) returns a median in the textbook
sense: at least half of the values are ≤ it and at least half are ≥ it. -/
theorem median_reducer_is_median (xs : List Rat) (hne : xs ≠ []) : IsMedian (median xs) xs :=
  median_isMedian xs hne

/-- … e.g. univariate MdAE: the returned value is a median of the absolute errors -/
theorem mdae_univariate_is_median (t p : Col) (mo : MO) (out : Out)
    (h : medianAbsoluteError [t] [p] none mo = .ok out) :
    out.deg = 1 ∧ ∃ m, out.qs = [m] ∧ IsMedian m (Spec.Metrics.absErr t p) := by
  obtain ⟨hc, _, hf⟩ := mdae_iff.mp h
  obtain ⟨h1, h2⟩ := finish_ok hf
  refine ⟨h2, median (absErrs t p), by rw [h1]; rfl, ?_⟩
  rw [← absErrs_eq_spec]
  apply median_isMedian
  obtain ⟨e1, e2, _⟩ := checkRegTargets_ok hc
  simp only [nrows] at e1 e2
  intro hnil
  have : (absErrs t p).length = 0 := by rw [hnil]; rfl
  simp only [absErrs, List.length_zipWith] at this
  omega

/-- The four direct median metrics return, per column, the (weighted) median `medianW hw` of the textbook errors
(|a−f|, (a−f)², percentage errors and their squares — the latter two while no actual is closer to 0 than eps):
`np.median` without horizon weights (a median in the textbook sense by `median_reducer_is_median`), sklearn's weighted
percentile with them.  Includes weighted MdAPE for `symmetric=False` (full strength since fix b4ed244). -/
theorem median_metrics_eq_spec (eps : Rat) (he : 0 < eps) (yt yp : Mat) (hw : Option (List Rat)) (mo : MO)
    (sym sqrt : Bool) (out : Out) :
    (medianAbsoluteError yt yp hw mo = .ok out →
      out.qs = List.zipWith (fun t p => medianW hw (Spec.Metrics.absErr t p)) yt yp) ∧
    (medianSquaredError yt yp hw mo sqrt = .ok out →
      out.qs = List.zipWith (fun t p => medianW hw (Spec.Metrics.sqErr t p)) yt yp) ∧
    ((∀ t ∈ yt, ∀ a ∈ t, eps ≤ |a|) → medianAbsolutePercentageError eps yt yp hw mo sym = .ok out →
      out.qs = List.zipWith (fun t p => medianW hw (Spec.Metrics.pctErrs sym t p)) yt yp) ∧
    ((∀ t ∈ yt, ∀ a ∈ t, eps ≤ |a|) → medianSquaredPercentageError eps yt yp hw mo sqrt sym = .ok out →
      out.qs = List.zipWith (fun t p => medianW hw ((Spec.Metrics.pctErrs sym t p).map (· ^ 2))) yt yp) := by
  refine ⟨fun h => ?_, fun h => ?_, fun hg h => ?_, fun hg h => ?_⟩
  · rw [(finish_ok (mdae_iff.mp h).2.2).1]; congr 1; funext t p
    rw [absErrs_eq_spec]
  · rw [(finish_ok (mdse_iff.mp h).2.2).1]; congr 1; funext t p
    rw [sqErrs'_eq_spec]
  · rw [(finish_ok (mdape_iff.mp h).2.2).1]
    apply zipWith_congr_mem
    intro t ht p _
    rw [pctCol_abs_eq_spec eps he sym t p (hg t ht)]
  · rw [(finish_ok (mdspe_iff.mp h).2.2).1]
    apply zipWith_congr_mem
    intro t ht p _
    rw [pctCol_sqr_eq_spec eps he sym t p (hg t ht)]

/-- weighted MdAPE = sklearn's weighted percentile of the textbook |percentage errors| of (y_true, y_pred), for
`symmetric` True and False alike -/
theorem mdape_weighted_eq_spec (eps : Rat) (he : 0 < eps) (yt yp : Mat) (w : List Rat) (mo : MO) (sym : Bool) (out : Out)
    (hg : ∀ t ∈ yt, ∀ a ∈ t, eps ≤ |a|) (h : medianAbsolutePercentageError eps yt yp (some w) mo sym = .ok out) :
    out.deg = 1 ∧ out.qs = List.zipWith (fun t p => wpct w (Spec.Metrics.pctErrs sym t p)) yt yp :=
  ⟨(finish_ok (mdape_iff.mp h).2.2).2, (median_metrics_eq_spec eps he yt yp (some w) mo sym false out).2.2.1 hg h⟩

/-- regression of the former swapped-argument defect: y_true=[1,2,3,4], y_pred=[3/2,2,2,5], unit weights,
symmetric=False → 1/4 (the code used to return 1/5) -/
example : medianAbsolutePercentageError EPS [[1, 2, 3, 4]] [[3/2, 2, 2, 5]] (some [1, 1, 1, 1]) .raw false
    = .ok (.raw 1 [1/4]) := by decide +kernel

/-- univariate MdASE, MdSSE / root MdSSE (`raw_values`): (weighted) median error over the plain median of the in-sample
seasonal-naive errors, while the latter is at least eps -/
theorem median_scaled_univariate_eq_spec (eps : Rat) (t p c : Col) (ix : Option (Int × Int)) (sp : Int)
    (hw : Option (List Rat)) (sqrt : Bool) (out : Out) (h0 : 0 < sp) (h1 : sp < c.length) :
    (eps ≤ median ((Spec.Metrics.naiveErr sp.toNat c).map (|·|)) →
      medianAbsoluteScaledError eps [t] [p] (.arr [c]) ix sp hw .raw = .ok out →
      out = .raw 1 [medianW hw (Spec.Metrics.absErr t p) / median ((Spec.Metrics.naiveErr sp.toNat c).map (|·|))]) ∧
    (eps ≤ median ((Spec.Metrics.naiveErr sp.toNat c).map (· ^ 2)) →
      medianSquaredScaledError eps [t] [p] (.arr [c]) ix sp hw .raw sqrt = .ok out →
      out = .raw (rootDeg sqrt 1)
        [medianW hw (Spec.Metrics.sqErr t p) / median ((Spec.Metrics.naiveErr sp.toNat c).map (· ^ 2))]) :=
  ⟨fun hg h => mdase_univariate_eq_spec h0 h1 hg h, fun hg h => mdsse_univariate_eq_spec h0 h1 hg h⟩

/-- univariate relative loss (`raw_values`) with MAE / MSE as loss function: loss of the forecast over the loss of the
benchmark forecast, while the latter is at least eps -/
theorem relative_loss_univariate_eq_spec (eps : Rat) (t p b : Col) (hw : Option (List Rat)) (out : Out) :
    (eps ≤ MAE hw t b → relativeLoss eps [t] [p] [b] .mae hw .raw = .ok out →
      out = .raw 1 [MAE hw t p / MAE hw t b]) ∧
    (eps ≤ MSE hw t b → relativeLoss eps [t] [p] [b] .mse hw .raw = .ok out →
      out = .raw 1 [MSE hw t p / MSE hw t b]) :=
  ⟨fun hg h => relloss_mae_univariate_eq_spec hg h, fun hg h => relloss_mse_univariate_eq_spec hg h⟩

example : relativeLoss EPS [[1, 2, 3]] [[3/2, 2, 2]] [[2, 1, 4]] .mae (some [1, 1, 2]) .raw
    = .ok (.raw 1 [5/8]) := by decide +kernel

/-- the weighted percentile (median metrics with `horizon_weight`) returns one of the data values, hence stays within
any bounds of the data; the weighted and unweighted medians are homogeneous for positive factors -/
theorem weighted_median_laws (ws xs : List Rat) (c : Rat) (hc : 0 < c) :
    (wpct ws xs = 0 ∨ wpct ws xs ∈ xs) ∧ wpct ws (xs.map (c * ·)) = c * wpct ws xs ∧
    median (xs.map (c * ·)) = c * median xs :=
  ⟨wpct_mem ws xs, wpct_scale c hc ws xs, median_scale c hc xs⟩

/-! ## 6. Horizon weights and multi-output options -/

/-- `np.average(·, weights=w)`: unit weights give the plain mean, and only the proportions of the weights matter -/
theorem horizon_weight_is_weighted_mean (ws xs : List Rat) (c : Rat) (hc : c ≠ 0) :
    npAverage (some ws) xs = (List.zipWith (· * ·) ws xs).sum / ws.sum ∧
    npAverage (some (List.replicate xs.length 1)) xs = npAverage none xs ∧
    npAverage (some (ws.map (c * ·))) xs = npAverage (some ws) xs :=
  ⟨rfl, wavg_ones xs, wavg_weights_scale c hc ws xs⟩

/-- For the nine metrics that do not call another metric and take (y_true, y_pred) —
MAE, MSE, MdAE, MdSE, MAPE, MdAPE, MSPE, MdSPE, mean asymmetric error — `IsDirect` holds … -/
theorem direct_metrics (eps : Rat) (sym sqrt : Bool) (thr : Rat) (l r : EF) :
    IsDirect meanAbsoluteError (fun hw t p => npAverage hw (absErrs t p)) 1 true ∧
    IsDirect (fun a b h m => meanSquaredError a b h m sqrt) (fun hw t p => npAverage hw (sqErrs t p)) (rootDeg sqrt 1) true ∧
    IsDirect medianAbsoluteError (fun hw t p => medianW hw (absErrs t p)) 1 false ∧
    IsDirect (fun a b h m => medianSquaredError a b h m sqrt) (fun hw t p => medianW hw (sqErrs' t p)) (rootDeg sqrt 1) false ∧
    IsDirect (fun a b h m => meanAbsolutePercentageError eps a b h m sym)
      (fun hw t p => npAverage hw ((pctCol eps sym t p).map absR)) 1 true ∧
    IsDirect (fun a b h m => medianAbsolutePercentageError eps a b h m sym)
      (fun hw t p => medianW hw ((pctCol eps sym t p).map absR)) 1 false ∧
    IsDirect (fun a b h m => meanSquaredPercentageError eps a b h m sqrt sym)
      (fun hw t p => npAverage hw ((pctCol eps sym t p).map sqr)) (rootDeg sqrt 1) true ∧
    IsDirect (fun a b h m => medianSquaredPercentageError eps a b h m sqrt sym)
      (fun hw t p => medianW hw ((pctCol eps sym t p).map sqr)) (rootDeg sqrt 1) false ∧
    IsDirect (fun a b h m => meanAsymmetricError a b h m thr (some l) (some r))
      (fun hw t p => npAverage hw (asymCol thr l r t p)) 1 true :=
  ⟨isDirect_mae, isDirect_mse sqrt, isDirect_mdae, isDirect_mdse sqrt, isDirect_mape eps sym, isDirect_mdape eps sym,
   isDirect_mspe eps sqrt sym, isDirect_mdspe eps sqrt sym, isDirect_masym thr l r⟩

/-- … and for every such metric `f`: with `raw_values` the j-th value is exactly what `f` returns for column j alone;
`uniform_average` is the plain average and output weights `w` the `w`-weighted average of those raw values. -/
theorem multioutput_is_per_column {f : Mat → Mat → Option (List Rat) → MO → Except Err Out}
    {colf : Option (List Rat) → Col → Col → Rat} {k : Nat} {ns : Bool} (hd : IsDirect f colf k ns)
    (yt yp : Mat) (hw : Option (List Rat)) (qs : List Rat) (hRt : Rect yt) (hRp : Rect yp) :
    (f yt yp hw .raw = .ok (.raw k qs) → ∀ j (hjt : j < yt.length) (hjp : j < yp.length),
        ∃ hq : j < qs.length, f [yt[j]] [yp[j]] hw .uniform = .ok (.avg k none [qs[j]])) ∧
    (f yt yp hw .uniform = .ok (.avg k none qs) ↔ f yt yp hw .raw = .ok (.raw k qs)) ∧
    (∀ w out, f yt yp hw (.weights w) = .ok out →
        ∃ qs', f yt yp hw .raw = .ok (.raw k qs') ∧ out = .avg k (some w) qs') :=
  ⟨fun h j hjt hjp => direct_raw_per_column hd yt yp hw qs hRt hRp h j hjt hjp,
   direct_uniform_iff_raw hd yt yp hw qs,
   fun w out h => direct_weights_of_raw hd yt yp hw w out h⟩

example : meanSquaredError [[1, 2, 3], [2, 1, 5]] [[1, 3, 3], [1, 1, 2]] none (.weights [1, 3]) true
    = .ok (.avg 2 (some [1, 3]) [1/3, 10/3]) := by decide +kernel   -- RMSE per column, then weighted average

/-- The relative-error metrics MRAE, MdRAE, GMRAE, GMRSE have the analogous skeleton `IsDirect3` over
(y_true, y_pred, benchmark), for every horizon weighting (geometric means: weights ≥ 0, the modelled domain) … -/
theorem relative_metrics (eps : Rat) (sqrt : Bool) :
    IsDirect3 eps (meanRelativeAbsoluteError eps) (fun _ => True) (fun hw re => npAverage hw (re.map absR)) (fun _ _ => 1) true ∧
    IsDirect3 eps (medianRelativeAbsoluteError eps) (fun _ => True) (fun hw re => medianW hw (re.map absR)) (fun _ _ => 1) false ∧
    IsDirect3 eps (geometricMeanRelativeAbsoluteError eps) (fun hw => checkNonneg hw = .ok ())
      (fun hw re => gmFactor hw (re.map (fun e => floorEps eps (absR e)))) (fun hw n => gmDeg n hw) true ∧
    IsDirect3 eps (fun a b c h m => geometricMeanRelativeSquaredError eps a b c h m sqrt)
      (fun hw => checkNonneg hw = .ok ())
      (fun hw re => gmFactor hw (re.map (fun e => floorEps eps (sqr e)))) (fun hw n => rootDeg sqrt (gmDeg n hw)) true :=
  ⟨isDirect3_mrae eps, isDirect3_mdrae eps, isDirect3_gmrae eps, isDirect3_gmrse eps sqrt⟩

/-- … and for each of them `raw_values` is column-by-column: the j-th value is what the metric returns for
(y_true[:, j], y_pred[:, j], benchmark[:, j]) alone — horizon-weighted geometric means included (since fix 11fa5f6). -/
theorem multioutput_is_per_column_relative {eps : Rat}
    {f : Mat → Mat → Mat → Option (List Rat) → MO → Except Err Out}
    {pre : Option (List Rat) → Prop} {colf : Option (List Rat) → Col → Rat} {k : Option (List Rat) → Nat → Nat}
    {ns : Bool} (hd : IsDirect3 eps f pre colf k ns) (yt yp yb : Mat) (hw : Option (List Rat)) (qs : List Rat)
    (hRt : Rect yt) (hRp : Rect yp) (hRb : Rect yb) (h : f yt yp yb hw .raw = .ok (.raw (k hw (nrows yt)) qs))
    (j : Nat) (hjt : j < yt.length) (hjp : j < yp.length) (hjb : j < yb.length) :
    ∃ hq : j < qs.length, f [yt[j]] [yp[j]] [yb[j]] hw .uniform = .ok (.avg (k hw (nrows yt)) none [qs[j]]) :=
  direct3_raw_per_column hd yt yp yb hw qs hRt hRp hRb h j hjt hjp hjb

/-- regression: 3 steps × 2 columns with horizon weights used to raise ValueError; now one value per column -/
example : geometricMeanRelativeAbsoluteError EPS [[1, 2, 3], [2, 3, 4]] [[3/2, 5/2, 2], [2, 2, 5]]
    [[2, 1, 4], [0, 0, 1]] (some [1, 1, 2]) .raw = .ok (.raw 4 [1/4, EPS / 27]) := by decide +kernel

/-- The four scaled errors and the relative loss with `raw_values`: the j-th value is the metric of column j alone
(y_train[:, j] resp. benchmark[:, j] included). -/
theorem multioutput_is_per_column_scaled (eps : Rat) (yt yp tr yb : Mat) (ix : Option (Int × Int)) (sp : Int)
    (hw : Option (List Rat)) (sqrt : Bool) (f : Base) (out : Out) (hRt : Rect yt) (hRp : Rect yp)
    (j : Nat) (hjt : j < yt.length) (hjp : j < yp.length) :
    (Rect tr → ∀ (hjr : j < tr.length),
      (meanAbsoluteScaledError eps yt yp (.arr tr) ix sp hw .raw = .ok out →
        ∃ qs, out = .raw 1 qs ∧ ∃ hq : j < qs.length,
          meanAbsoluteScaledError eps [yt[j]] [yp[j]] (.arr [tr[j]]) ix sp hw .uniform = .ok (.avg 1 none [qs[j]])) ∧
      (medianAbsoluteScaledError eps yt yp (.arr tr) ix sp hw .raw = .ok out →
        ∃ qs, out = .raw 1 qs ∧ ∃ hq : j < qs.length,
          medianAbsoluteScaledError eps [yt[j]] [yp[j]] (.arr [tr[j]]) ix sp hw .uniform = .ok (.avg 1 none [qs[j]])) ∧
      (meanSquaredScaledError eps yt yp (.arr tr) ix sp hw .raw sqrt = .ok out →
        ∃ qs, out = .raw (rootDeg sqrt 1) qs ∧ ∃ hq : j < qs.length,
          meanSquaredScaledError eps [yt[j]] [yp[j]] (.arr [tr[j]]) ix sp hw .uniform sqrt
            = .ok (.avg (rootDeg sqrt 1) none [qs[j]])) ∧
      (medianSquaredScaledError eps yt yp (.arr tr) ix sp hw .raw sqrt = .ok out →
        ∃ qs, out = .raw (rootDeg sqrt 1) qs ∧ ∃ hq : j < qs.length,
          medianSquaredScaledError eps [yt[j]] [yp[j]] (.arr [tr[j]]) ix sp hw .uniform sqrt
            = .ok (.avg (rootDeg sqrt 1) none [qs[j]]))) ∧
    (Rect yb → ∀ (hjb : j < yb.length), relativeLoss eps yt yp yb f hw .raw = .ok out →
        ∃ qs, out = .raw 1 qs ∧ ∃ hq : j < qs.length,
          relativeLoss eps [yt[j]] [yp[j]] [yb[j]] f hw .uniform = .ok (.avg 1 none [qs[j]])) := by
  refine ⟨fun hRr hjr => ⟨fun h => ?_, fun h => ?_, fun h => ?_, fun h => ?_⟩, fun hRb hjb h => ?_⟩
  · exact scaled_raw_per_column isDirect_mae hRt hRp hRr h j hjt hjp hjr
  · exact scaled_raw_per_column isDirect_mdae hRt hRp hRr h j hjt hjp hjr
  · exact scaled_raw_per_column (isDirect_mse false) hRt hRp hRr h j hjt hjp hjr
  · exact scaled_raw_per_column (isDirect_mdse false) hRt hRp hRr h j hjt hjp hjr
  · exact relloss_raw_per_column hRt hRp hRb h j hjt hjp hjb

/-- With `uniform_average` / output weights the scaled errors and the relative loss return the averaged loss divided by
the averaged reference loss (clamped at eps) — the values of the function docstrings' examples — not the average of
the per-column ratios. -/
theorem scaled_aggregate_is_ratio_of_averages (eps : Rat) (k : Nat) (ws : Option (List Rat)) (pq nq : List Rat) :
    ratioOut eps k (.avg 1 ws pq) (.avg 1 ws nq) = .avg k none [npAverage ws pq / maxR (npAverage ws nq) eps] := rfl

example : meanAbsoluteScaledError EPS [[1/2, -1, 7], [1, 1, -6]] [[0, -1, 8], [2, 2, -5]]
    (.arr [[1/2, -1, 7], [1, 1, -6]]) none 1 none .uniform = .ok (.avg 1 none [2/11]) := by
  decide +kernel   -- docstring: 0.18181818…, whereas the raw values are 2/19 and 2/7

/-! ## 7. Scaled errors are invariant to rescaling all series -/

/-- MASE, MdASE, MSSE / RMSSE, MdSSE / RMdSSE: multiplying y_true, y_pred and y_train by c > 0 changes nothing, for all
shapes, seasonal periods, weights and multi-output options — as long as the in-sample naive error (every column, or
their average) is at least eps before and after (below eps the code divides by eps instead; see the witness). -/
theorem scaled_scale_invariant (eps c : Rat) (hc : 0 < c) (yt yp tr : Mat) (ix : Option (Int × Int)) (sp : Int)
    (hw : Option (List Rat)) (mo : MO) (sqrt : Bool) (out : Out) :
    (meanAbsoluteScaledError eps yt yp (.arr tr) ix sp hw mo = .ok out →
      (∀ naive, meanAbsoluteError (tr.map (naiveTrue sp)) (tr.map (naivePred sp)) none mo = .ok naive →
        ∀ d ∈ naive.perCol, eps ≤ d ∧ eps ≤ c * d) →
      meanAbsoluteScaledError eps (scaleMat c yt) (scaleMat c yp) (.arr (scaleMat c tr)) ix sp hw mo = .ok out) ∧
    (medianAbsoluteScaledError eps yt yp (.arr tr) ix sp hw mo = .ok out →
      (∀ naive, medianAbsoluteError (tr.map (naiveTrue sp)) (tr.map (naivePred sp)) none mo = .ok naive →
        ∀ d ∈ naive.perCol, eps ≤ d ∧ eps ≤ c * d) →
      medianAbsoluteScaledError eps (scaleMat c yt) (scaleMat c yp) (.arr (scaleMat c tr)) ix sp hw mo = .ok out) ∧
    (meanSquaredScaledError eps yt yp (.arr tr) ix sp hw mo sqrt = .ok out →
      (∀ naive, meanSquaredError (tr.map (naiveTrue sp)) (tr.map (naivePred sp)) none mo false = .ok naive →
        ∀ d ∈ naive.perCol, eps ≤ d ∧ eps ≤ c * c * d) →
      meanSquaredScaledError eps (scaleMat c yt) (scaleMat c yp) (.arr (scaleMat c tr)) ix sp hw mo sqrt = .ok out) ∧
    (medianSquaredScaledError eps yt yp (.arr tr) ix sp hw mo sqrt = .ok out →
      (∀ naive, medianSquaredError (tr.map (naiveTrue sp)) (tr.map (naivePred sp)) none mo false = .ok naive →
        ∀ d ∈ naive.perCol, eps ≤ d ∧ eps ≤ c * c * d) →
      medianSquaredScaledError eps (scaleMat c yt) (scaleMat c yp) (.arr (scaleMat c tr)) ix sp hw mo sqrt = .ok out) := by
  refine ⟨fun h hg => ?_, fun h hg => ?_, fun h hg => ?_, fun h hg => ?_⟩
  · exact Lem.Metrics.scaled_scale_invariant c c hc (fun a b h m => mae_scale c hc a b h m) h hg
  · exact Lem.Metrics.scaled_scale_invariant c c hc (fun a b h m => mdae_scale c hc a b h m) h hg
  · exact Lem.Metrics.scaled_scale_invariant c (c * c) (mul_pos hc hc) (fun a b h m => mse_scale c a b h m false) h hg
  · exact Lem.Metrics.scaled_scale_invariant c (c * c) (mul_pos hc hc) (fun a b h m => mdse_scale c hc a b h m false) h hg

/-- The unconditional statement is false: with a flat training series the naive error is 0, the code divides by EPS,
and doubling all series doubles MASE (y_true=[1], y_pred=[2], y_train=[3,3]: 2^52 versus 2^53). -/
theorem scaled_not_scale_invariant_when_clamped :
    meanAbsoluteScaledError EPS [[1]] [[2]] (.arr [[3, 3]]) none 1 none .raw = .ok (.raw 1 [4503599627370496]) ∧
    meanAbsoluteScaledError EPS (scaleMat 2 [[1]]) (scaleMat 2 [[2]]) (.arr (scaleMat 2 [[3, 3]])) none 1 none .raw
      = .ok (.raw 1 [9007199254740992]) := by
  decide +kernel

/-- The flat-training-series floor is a floor at eps and nothing else: for all four scaled errors and the relative loss
(`scaled` and `relativeLoss` build their result with `ratioOut` / `ratioVals`), every shape and option, each reported
ratio is `loss / reference` as soon as the reference loss (the in-sample naive error) is at least eps — however small
the unit of the data — and `loss / eps` only strictly below eps. -/
theorem scaled_floor_only_below_eps (eps : Rat) (k : Nat) (num den : Out) :
    ratioVals eps num den
      = List.zipWith (fun a b => if b < eps then a / eps else a / b) num.perCol den.perCol ∧
    (ratioOut eps k num den).qs = ratioVals eps num den := by
  refine ⟨?_, by cases num <;> rfl⟩
  unfold ratioVals
  congr 1
  funext a b
  unfold maxR
  split <;> rfl

/-- series quoted in units of 2^-20 (naive MSE 73/6·2^-40 ≈ 1.1e-11, far above EPS, below 1e-8): same RMSSE radicand
and same MASE as for the series in units of 1 -/
example : meanSquaredScaledError EPS (scaleMat (1/1048576) [[3, -1/2, 2]]) (scaleMat (1/1048576) [[5/2, 0, 2]])
      (.arr (scaleMat (1/1048576) [[5, 1/2, 4, 6]])) none 1 none .raw true
    = meanSquaredScaledError EPS [[3, -1/2, 2]] [[5/2, 0, 2]] (.arr [[5, 1/2, 4, 6]]) none 1 none .raw true ∧
    meanSquaredScaledError EPS [[3, -1/2, 2]] [[5/2, 0, 2]] (.arr [[5, 1/2, 4, 6]]) none 1 none .raw true
      = .ok (.raw 2 [1/73]) := by decide +kernel

example : meanAbsoluteScaledError EPS (scaleMat (1/1099511627776) [[3, -1/2, 2]]) (scaleMat (1/1099511627776) [[5/2, 0, 2]])
      (.arr (scaleMat (1/1099511627776) [[5, 1/2, 4, 6]])) none 1 (some [1, 2, 1]) .raw
    = .ok (.raw 1 [9/80]) := by decide +kernel

/-! ## 8. Geometric means = textbook (weighted) geometric mean of the floored relative errors -/

/-- GMRAE / GMRSE, per output column: the radicand is `Π_i x_i` (no weights) resp. `Π_i x_i ^ a_i` (horizon weights) over
the floored values `x_i = floor(|rel. error_i|)` resp. `floor(rel. error_i²)`, under a root of degree `n` resp. `Σ a_i`
(doubled by `square_root`) — i.e. `exp(Σ w_i ln x_i / Σ w_i)`, see `gm_weighted_exponents`.  One value per column.
(Full strength since fix 11fa5f6; the model's domain is weights ≥ 0.) -/
theorem gm_eq_spec (eps : Rat) (yt yp yb : Mat) (hw : Option (List Rat)) (mo : MO) (sqrt : Bool) (out : Out) :
    (geometricMeanRelativeAbsoluteError eps yt yp yb hw mo = .ok out →
      out.deg = gmDeg (nrows yt) hw ∧
      out.qs = relCols eps (fun re => gmFactor hw (re.map (fun e => floorEps eps (absR e)))) yt yp yb) ∧
    (geometricMeanRelativeSquaredError eps yt yp yb hw mo sqrt = .ok out →
      out.deg = rootDeg sqrt (gmDeg (nrows yt) hw) ∧
      out.qs = relCols eps (fun re => gmFactor hw (re.map (fun e => floorEps eps (sqr e)))) yt yp yb) := by
  constructor
  · intro h
    have h2 := (gmrae_iff.mp h).2.2.2.2.2
    exact ⟨(finish_ok h2).2, (finish_ok h2).1⟩
  · intro h
    have h2 := (gmrse_iff.mp h).2.2.2.2.2
    exact ⟨(finish_ok h2).2, (finish_ok h2).1⟩

/-- the integer exponents are proportional to the weights: `a_i = w_i · D` with `D` the common denominator, so
`(Π x_i^(a_i))^(1/Σa)` is the weighted geometric mean `Π x_i^(w_i/Σw)` -/
theorem gm_weighted_exponents (ws : List Rat) (hw : ∀ x ∈ ws, 0 ≤ x) :
    (exps ws).map (Nat.cast : Nat → Rat) = ws.map (fun x => x * (commonDen ws : Rat)) :=
  exps_proportional ws hw

/-- for a univariate series whose benchmark stays at least eps away from the truth, the factors are the floored
textbook relative errors: the reported g satisfies g^d = Π floor(|(a−f)/(a−f*)|)^(a_i) (a_i = 1, d = n without weights). -/
theorem gmrae_univariate_eq_spec (eps : Rat) (t p b : Col) (hw : Option (List Rat)) (mo : MO) (out : Out)
    (hg : ∀ x ∈ List.zipWith (fun a g => |a - g|) t b, eps ≤ x)
    (h : geometricMeanRelativeAbsoluteError eps [t] [p] [b] hw mo = .ok out) :
    out.deg = gmDeg t.length hw ∧
    out.qs = [gmFactor hw ((Spec.Metrics.relErr t p b).map (fun e => floorEps eps |e|))] := by
  have h2 := (gmrae_iff.mp h).2.2.2.2.2
  refine ⟨(finish_ok h2).2, ?_⟩
  rw [(finish_ok h2).1]
  simp only [relCols]
  rw [relCol_eq_spec eps t p b hg]
  congr 2
  apply List.map_congr_left
  intro e _
  rw [absR_eq_abs]

/-- regression of the former broadcasting defect (univariate, w=[1,2,3,2]): one value, (1/32)^(1/8) = 0.6484…, where
the code used to return four values -/
example : geometricMeanRelativeAbsoluteError EPS [[1, 2, 3, 4]] [[3/2, 5/2, 2, 5]] [[2, 1, 4, 6]] (some [1, 2, 3, 2]) .raw
    = .ok (.raw 8 [1/32]) := by decide +kernel

end SkVerif.C06
