/-
C06  Forecast accuracy metrics equal their published definitions and obey their laws.
Property theorems about SkVerif/Model/Metrics.lean (model of performance_metrics/forecasting/_functions.py and
_classes.py).  `eps` stands for EPS = np.finfo(float64).eps; every theorem holds for any `0 < eps`.
A result `Out` carries radicands `qs` and a root degree `deg`: the reported number per column is `qs[j]^(1/deg)`
(`deg = 1`: no root; `np.sqrt` doubles the degree; geometric means have the number of factors as degree).
Only theorems + non-vacuity examples here; lemmas live in SkVerif/Lemmas/Metrics*.lean.
-/
import SkVerif.Model.Metrics
import SkVerif.Spec.Metrics
import SkVerif.Lemmas.MetricsSym
import SkVerif.Lemmas.MetricsScale
namespace SkVerif.C06
open SkVerif SkVerif.Metrics SkVerif.Lem.Metrics

/-- the value of EPS in the real code (used only in examples and witnesses) -/
def EPS : Rat := 1 / 4503599627370496

/-! ## 1. Every loss is non-negative -/

/-- All 18 metrics, all options: if the call returns, every radicand is ≥ 0 and (for root-free results) so is the
exact value / weighted average over output columns.  Hypotheses: horizon weights and output weights ≥ 0. -/
theorem loss_nonneg (eps : Rat) (he : 0 < eps) (m : Metric) (a : Args) (out : Out)
    (hw : NonnegW a.hw) (hmo : NonnegMO a.mo) (h : call eps m a = .ok out) :
    (∀ q ∈ out.qs, 0 ≤ q) ∧ (∀ v ∈ out.perCol, 0 ≤ v) := by
  cases m <;> simp only [call] at h
  case mae => exact mae_nonneg h hw hmo
  case mse => exact mse_nonneg h hw hmo
  case mdae => exact mdae_nonneg h hmo
  case mdse => exact mdse_nonneg h hmo
  case mape => exact mape_nonneg h hw hmo
  case mdape => exact mdape_nonneg h hmo
  case mspe => exact mspe_nonneg h hw hmo
  case mdspe => exact mdspe_nonneg h hmo
  case masym => exact masym_nonneg h hw hmo
  case mrae => cases hb : a.yb <;> simp only [hb, needArg] at h <;> (first | cases h | exact mrae_nonneg h hw hmo)
  case mdrae => cases hb : a.yb <;> simp only [hb, needArg] at h <;> (first | cases h | exact mdrae_nonneg h hmo)
  case gmrae => cases hb : a.yb <;> simp only [hb, needArg] at h <;> (first | cases h | exact gmrae_nonneg he h hmo)
  case gmrse => cases hb : a.yb <;> simp only [hb, needArg] at h <;> (first | cases h | exact gmrse_nonneg he h hmo)
  case relloss =>
    cases hb : a.yb <;> simp only [hb, needArg] at h <;> (first | cases h | exact relativeLoss_nonneg he h hw hmo)
  case mase =>
    cases hb : a.ytr <;> simp only [hb, needArg] at h <;>
    (first | cases h | exact scaled_nonneg he (fun _ _ _ _ _ h' hn hm => mae_nonneg h' hn hm) h hw hmo)
  case mdase =>
    cases hb : a.ytr <;> simp only [hb, needArg] at h <;>
    (first | cases h | exact scaled_nonneg he (fun _ _ _ _ _ h' _ hm => mdae_nonneg h' hm) h hw hmo)
  case msse =>
    cases hb : a.ytr <;> simp only [hb, needArg] at h <;>
    (first | cases h | exact scaled_nonneg he (fun _ _ _ _ _ h' hn hm => mse_nonneg h' hn hm) h hw hmo)
  case mdsse =>
    cases hb : a.ytr <;> simp only [hb, needArg] at h <;>
    (first | cases h | exact scaled_nonneg he (fun _ _ _ _ _ h' _ hm => mdse_nonneg h' hm) h hw hmo)

example : call EPS .mase { yt := [[1, 2]], yp := [[3/2, 2]], ytr := some (.arr [[0, 1, 3]]), hw := some [1, 3] }
    = .ok (.avg 1 none [1 / 12]) := by decide +kernel
