/-
Line-protocol driver: one case per input line `<PROP> <op> <fields...>`, one output line.
Imports the executable model only (no Mathlib), so it starts quickly under
`lake env lean --run Driver.lean`.
-/
import SkVerif.Drv.All

partial def loop (h : IO.FS.Stream) (out : IO.FS.Stream) : IO Unit := do
  let line ← h.getLine
  if line.isEmpty then return ()
  out.putStrLn (SkVerif.Drv.dispatch line)
  loop h out

def main : IO Unit := do
  let out ← IO.getStdout
  loop (← IO.getStdin) out
  out.flush
