-- Root of the library: everything `lake build` (setup_cmd) must compile.
import SkVerif.Drv.All
import SkVerif.Props.C02
